/-
  Byte-level primitives shared by the codec models (C06 transaction codec, C07 snapshot
  codec, C08 peer messages).  Core Lean only.

  * `Bytes = List UInt8`
  * big-endian fixed-width integers: `be n v` / `beVal`, `writeU16/32/64`, `readU16/32/64`
  * `readN`  — the model of `common.Decoder.Read` over a `bytes.Reader`, with its quirk:
               **a read at end of input fails even when zero bytes are requested**
               (`bytes.Reader.Read` returns `io.EOF` whenever the reader is exhausted).
  * `readBytes` / `writeBytes` — `Decoder.ReadBytes` / `WriteInt(len)+Write`: u16 length prefix,
               and *no* read at all when the length is zero (so no EOF quirk there).
  * `readInteger` / `writeInteger` — `Decoder.ReadInteger` / `Encoder.WriteInteger`:
               u16 length prefix, then an unconditional `Read` (so the quirk applies: a
               zero-length integer at the very end of the input is an error).
  Each reader has a lemma `read (write x ++ rest) = some (x, rest)`.
-/
namespace Mixin

abbrev Bytes := List UInt8

namespace Bytes

/-! ## big-endian fixed width -/

/-- tail-recursive worker: prepend the `n` low-order base-256 digits of `v` to `acc` -/
def beAux : Nat → Nat → Bytes → Bytes
  | 0, _, acc => acc
  | n + 1, v, acc => beAux n (v / 256) (UInt8.ofNat v :: acc)

/-- `n` bytes, big endian, of `v mod 256^n` (Go: `binary.BigEndian.AppendUintNN`, `big.Int.FillBytes`) -/
def be (n v : Nat) : Bytes := beAux n v []

/-- big-endian value of a byte string (Go: `binary.BigEndian.UintNN`, `big.Int.SetBytes`) -/
def beVal (b : Bytes) : Nat := b.foldl (fun acc x => acc * 256 + x.toNat) 0

theorem beAux_eq (n v : Nat) (acc : Bytes) : beAux n v acc = beAux n v [] ++ acc := by
  induction n generalizing v acc with
  | zero => simp [beAux]
  | succ n ih =>
    simp only [beAux]
    rw [ih (v / 256) (UInt8.ofNat v :: acc), ih (v / 256) [UInt8.ofNat v]]
    simp

theorem be_zero (v : Nat) : be 0 v = [] := rfl

theorem be_succ (n v : Nat) : be (n + 1) v = be n (v / 256) ++ [UInt8.ofNat v] := by
  simp only [be, beAux]
  rw [beAux_eq]

@[simp] theorem be_length (n v : Nat) : (be n v).length = n := by
  induction n generalizing v with
  | zero => rfl
  | succ n ih => rw [be_succ]; simp [ih]

theorem beVal_append_single (l : Bytes) (x : UInt8) :
    beVal (l ++ [x]) = beVal l * 256 + x.toNat := by
  simp [beVal, List.foldl_append]

theorem beVal_be (n v : Nat) : beVal (be n v) = v % 256 ^ n := by
  induction n generalizing v with
  | zero => simp [be_zero, beVal, Nat.mod_one]
  | succ n ih =>
    rw [be_succ, beVal_append_single, ih, Nat.pow_succ', Nat.mod_mul]
    have : (UInt8.ofNat v).toNat = v % 256 := by simp
    rw [this]
    omega

theorem rev_ind {α : Type} {P : List α → Prop} (h0 : P [])
    (h1 : ∀ l x, P l → P (l ++ [x])) : ∀ l, P l := by
  intro l
  have h : ∀ l : List α, P l.reverse := by
    intro l
    induction l with
    | nil => exact h0
    | cons a t ih => rw [List.reverse_cons]; exact h1 _ _ ih
  have := h l.reverse
  rwa [List.reverse_reverse] at this

theorem beVal_be_of_lt {n v : Nat} (h : v < 256 ^ n) : beVal (be n v) = v := by
  rw [beVal_be, Nat.mod_eq_of_lt h]

theorem beVal_lt (b : Bytes) : beVal b < 256 ^ b.length := by
  induction b using rev_ind with
  | h0 => simp [beVal]
  | h1 l x ih =>
    rw [beVal_append_single]
    have hx : x.toNat < 256 := x.toNat_lt
    simp only [List.length_append, List.length_singleton, Nat.pow_succ]
    omega

/-- a byte string is the `n`-byte big-endian form of its own value -/
theorem be_beVal (b : Bytes) : be b.length (beVal b) = b := by
  induction b using rev_ind with
  | h0 => rfl
  | h1 l x ih =>
    have hx : x.toNat < 256 := x.toNat_lt
    simp only [List.length_append, List.length_singleton]
    rw [be_succ, beVal_append_single]
    have h1 : (beVal l * 256 + x.toNat) / 256 = beVal l := by omega
    have h2 : UInt8.ofNat (beVal l * 256 + x.toNat) = x := by
      apply UInt8.toNat_inj.mp
      simp
    rw [h1, h2, ih]

def writeU16 (v : Nat) : Bytes := be 2 v
def writeU32 (v : Nat) : Bytes := be 4 v
def writeU64 (v : Nat) : Bytes := be 8 v

/-! ## the reader -/

/-- `Decoder.Read(b)` with `len(b) = n` on a `bytes.Reader` holding `s`.
    * reader exhausted → `io.EOF`, **even for `n = 0`**
    * fewer than `n` bytes left → "data short"
    * otherwise the next `n` bytes. -/
def readN (n : Nat) (s : Bytes) : Option (Bytes × Bytes) :=
  if s.isEmpty then none
  else if n = 0 then some ([], s)
  else if (s.drop (n - 1)).isEmpty then none
  else some (s.take n, s.drop n)

theorem readN_spec (n : Nat) (s : Bytes) :
    readN n s = if s = [] ∨ s.length < n then none else some (s.take n, s.drop n) := by
  unfold readN
  cases s with
  | nil => simp
  | cons a t =>
    by_cases hn : n = 0
    · subst hn; simp
    · simp only [List.isEmpty_cons, Bool.false_eq_true, if_false, hn, List.isEmpty_iff,
        List.drop_eq_nil_iff]
      by_cases h : (a :: t).length ≤ n - 1
      · have h' : (a :: t) = [] ∨ (a :: t).length < n := Or.inr (by omega)
        rw [if_pos h, if_pos h']
      · have h' : ¬ ((a :: t) = [] ∨ (a :: t).length < n) := by
          intro c; rcases c with c | c
          · cases c
          · omega
        rw [if_neg h, if_neg h']

/-- the per-field read-after-write lemma for raw bytes: a zero-length read needs a
    non-empty remainder (the `bytes.Reader` quirk). -/
theorem readN_append {n : Nat} {a rest : Bytes} (hl : a.length = n) (hne : a ++ rest ≠ []) :
    readN n (a ++ rest) = some (a, rest) := by
  rw [readN_spec]
  have h1 : ¬ ((a ++ rest) = [] ∨ (a ++ rest).length < n) := by
    intro h
    rcases h with h | h
    · exact hne h
    · simp at h; omega
  rw [if_neg h1]
  subst hl
  simp

theorem readN_append_pos {n : Nat} {a rest : Bytes} (hl : a.length = n) (hn : 0 < n) :
    readN n (a ++ rest) = some (a, rest) := by
  apply readN_append hl
  intro h
  have : (a ++ rest).length = 0 := by rw [h]; rfl
  rw [List.length_append] at this
  omega

theorem readN_some {n : Nat} {s a r : Bytes} (h : readN n s = some (a, r)) :
    s = a ++ r ∧ a.length = n ∧ s ≠ [] := by
  rw [readN_spec] at h
  split at h
  · cases h
  · rename_i hc
    simp only [Option.some.injEq, Prod.mk.injEq] at h
    obtain ⟨rfl, rfl⟩ := h
    refine ⟨(List.take_append_drop n s).symm, ?_, fun e => hc (Or.inl e)⟩
    simp only [List.length_take]
    omega

/-- `bytes.Reader.ReadByte` -/
def readByte : Bytes → Option (UInt8 × Bytes)
  | [] => none
  | b :: s => some (b, s)

/-- `Decoder.ReadUint16` (the `d > MaximumEncodingInt` test can never fire on a uint16) -/
def readU16 (s : Bytes) : Option (Nat × Bytes) :=
  match readN 2 s with
  | none => none
  | some (b, s) => some (beVal b, s)

def readU32 (s : Bytes) : Option (Nat × Bytes) :=
  match readN 4 s with
  | none => none
  | some (b, s) => some (beVal b, s)

def readU64 (s : Bytes) : Option (Nat × Bytes) :=
  match readN 8 s with
  | none => none
  | some (b, s) => some (beVal b, s)

theorem readU16_write {v : Nat} (h : v < 65536) (rest : Bytes) :
    readU16 (writeU16 v ++ rest) = some (v, rest) := by
  unfold readU16 writeU16
  rw [readN_append_pos (be_length 2 v) (by omega)]
  simp only
  rw [beVal_be_of_lt (by omega)]

theorem readU32_write {v : Nat} (h : v < 4294967296) (rest : Bytes) :
    readU32 (writeU32 v ++ rest) = some (v, rest) := by
  unfold readU32 writeU32
  rw [readN_append_pos (be_length 4 v) (by omega)]
  simp only
  rw [beVal_be_of_lt (by omega)]

theorem readU64_write {v : Nat} (h : v < 18446744073709551616) (rest : Bytes) :
    readU64 (writeU64 v ++ rest) = some (v, rest) := by
  unfold readU64 writeU64
  rw [readN_append_pos (be_length 8 v) (by omega)]
  simp only
  rw [beVal_be_of_lt (by omega)]

theorem readU16_some {s r : Bytes} {v : Nat} (h : readU16 s = some (v, r)) :
    s = writeU16 v ++ r ∧ v < 65536 := by
  unfold readU16 at h
  split at h
  · cases h
  · rename_i b s' hb
    simp only [Option.some.injEq, Prod.mk.injEq] at h
    obtain ⟨rfl, rfl⟩ := h
    obtain ⟨hs, hl, _⟩ := readN_some hb
    have := beVal_lt b
    rw [hl] at this
    refine ⟨?_, by omega⟩
    unfold writeU16
    rw [← hl, be_beVal]
    exact hs

theorem readU32_some {s r : Bytes} {v : Nat} (h : readU32 s = some (v, r)) :
    s = writeU32 v ++ r ∧ v < 4294967296 := by
  unfold readU32 at h
  split at h
  · cases h
  · rename_i b s' hb
    simp only [Option.some.injEq, Prod.mk.injEq] at h
    obtain ⟨rfl, rfl⟩ := h
    obtain ⟨hs, hl, _⟩ := readN_some hb
    have := beVal_lt b
    rw [hl] at this
    refine ⟨?_, by omega⟩
    unfold writeU32
    rw [← hl, be_beVal]
    exact hs

theorem readU64_some {s r : Bytes} {v : Nat} (h : readU64 s = some (v, r)) :
    s = writeU64 v ++ r ∧ v < 18446744073709551616 := by
  unfold readU64 at h
  split at h
  · cases h
  · rename_i b s' hb
    simp only [Option.some.injEq, Prod.mk.injEq] at h
    obtain ⟨rfl, rfl⟩ := h
    obtain ⟨hs, hl, _⟩ := readN_some hb
    have := beVal_lt b
    rw [hl] at this
    refine ⟨?_, by omega⟩
    unfold writeU64
    rw [← hl, be_beVal]
    exact hs

/-! ## length-prefixed bytes -/

/-- `enc.WriteInt(len(b)); enc.Write(b)` (the `WriteInt` panic guard `len ≤ 65535` is the caller's) -/
def writeBytes (b : Bytes) : Bytes := writeU16 b.length ++ b

/-- `Decoder.ReadBytes`: length 0 returns without touching the reader. -/
def readBytes (s : Bytes) : Option (Bytes × Bytes) :=
  match readU16 s with
  | none => none
  | some (l, s) => if l = 0 then some ([], s) else readN l s

theorem readBytes_write {b : Bytes} (h : b.length < 65536) (rest : Bytes) :
    readBytes (writeBytes b ++ rest) = some (b, rest) := by
  unfold readBytes writeBytes
  rw [List.append_assoc, readU16_write h]
  simp only
  by_cases h0 : b.length = 0
  · have : b = [] := List.eq_nil_of_length_eq_zero h0
    subst this; simp
  · rw [if_neg h0]
    exact readN_append_pos rfl (by omega)

/-! ## big integers (`common.Integer` is a non-negative `big.Int`) -/

/-- `big.Int.BitLen` -/
def bitLen (v : Nat) : Nat := if v = 0 then 0 else v.log2 + 1

/-- `(d.i.BitLen() + 7) / 8` -/
def byteLen (v : Nat) : Nat := (bitLen v + 7) / 8

theorem lt_pow_byteLen (v : Nat) : v < 256 ^ byteLen v := by
  unfold byteLen bitLen
  by_cases h : v = 0
  · subst h; simp
  · rw [if_neg h]
    have h1 : v < 2 ^ (v.log2 + 1) := Nat.lt_log2_self
    have h2 : (256 : Nat) ^ ((v.log2 + 1 + 7) / 8) = 2 ^ (8 * ((v.log2 + 1 + 7) / 8)) := by
      rw [Nat.pow_mul]
    rw [h2]
    have h3 : v.log2 + 1 ≤ 8 * ((v.log2 + 1 + 7) / 8) := by omega
    exact Nat.lt_of_lt_of_le h1 (Nat.pow_le_pow_right (by omega) h3)

/-- `Encoder.WriteInteger` (guard `byteLen v ≤ 65535` is the caller's) -/
def writeInteger (v : Nat) : Bytes := writeU16 (byteLen v) ++ be (byteLen v) v

/-- `Decoder.ReadInteger`: the payload is read unconditionally, so a zero-length integer
    at the very end of the input is an error (`readN 0 [] = none`). -/
def readInteger (s : Bytes) : Option (Nat × Bytes) :=
  match readU16 s with
  | none => none
  | some (l, s) =>
    match readN l s with
    | none => none
    | some (b, s) => some (beVal b, s)

theorem readInteger_write {v : Nat} (h : byteLen v < 65536) {rest : Bytes} (hne : rest ≠ []) :
    readInteger (writeInteger v ++ rest) = some (v, rest) := by
  unfold readInteger writeInteger
  rw [List.append_assoc, readU16_write h]
  simp only
  rw [readN_append (be_length _ _) (by simp [hne])]
  simp only
  rw [beVal_be_of_lt (lt_pow_byteLen v)]

/-- the quirk, concretely: the two bytes `00 00` alone are not a readable Integer, but are
    one as soon as anything follows. -/
example : readInteger [0, 0] = none := by decide
example : readInteger [0, 0, 7] = some (0, [7]) := by decide
example : readBytes [0, 0] = some ([], []) := by decide

end Bytes
end Mixin
