#!/bin/bash
# usage: tools/try_seed.sh <prop> <seed-dir> <scratch-worktree> [demo-dest-relative-path]
# Confirms a seeded change (patch.diff + demo_test.go) in a scratch worktree, then runs ./check <prop> on /repo with it applied.
prop=$1; d=$2; wt=$3; dest=${4:-common/zz_demo_test.go}
export GOFLAGS=-mod=mod GOPROXY=off
pkg=./$(dirname $dest)/
cd $wt && git checkout -q -- . && git clean -fdq
cp $d/demo_test.go $wt/$dest
echo "== demo on clean tree"; go test -vet=off -count=1 -run 'Demo|Seed|Mut|ZZ|C[0-9][0-9]' $pkg 2>&1 | tail -3
git apply $d/patch.diff && echo "== build with patch" && go build ./... && echo build-ok
echo "== demo with patch"; go test -vet=off -count=1 -run 'Demo|Seed|Mut|ZZ|C[0-9][0-9]' $pkg 2>&1 | tail -5
rm -f $wt/$dest
echo "== existing tests of package with patch"; go test -vet=off -count=1 $pkg 2>&1 | tail -3
git checkout -q -- . && git clean -fdq
echo "== check on /repo with patch"
git -C /repo apply $d/patch.diff && (cd /verif && ./check $prop; echo "check rc=$?"); git -C /repo checkout -- .
