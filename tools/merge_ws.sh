#!/bin/bash
# usage: tools/merge_ws.sh <name>  — merge builder branch b-<name> into /verif main and cherry-pick h-<name> into /repo main
n=$1
cd /verif || exit 1
echo "== repo commits to pick:"; git -C /repo log --reverse --format='%h %s' main..h-$n
for c in $(git -C /repo log --reverse --format=%H main..h-$n); do
  git -C /repo cherry-pick $c >/dev/null 2>&1 || { echo "CHERRY-PICK CONFLICT $c"; git -C /repo status --short | head; exit 1; }
done
echo "== merging verif branch"
git merge --no-ff -m "merge builder $n" b-$n 2>&1 | tail -5
git status --short | grep '^UU\|^AA' && echo "MERGE CONFLICTS ABOVE"
