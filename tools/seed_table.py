#!/usr/bin/env python3
"""Regenerate the seeded-change table in DESIGN.md (between the SEED-TABLE markers) from seeded/*/meta.json."""
import json, glob, os, re
rows = []
for d in sorted(glob.glob('/verif/seeded/*/')):
    m = json.load(open(d + 'meta.json'))
    lc = m.get('lead_confirmation', {})
    name = os.path.basename(d.rstrip('/'))
    how = lc.get('detected_by') or "; ".join(sorted({(v.get('key') or ('; '.join(v.get('no_longer_checks') or []))[:60]) for v in lc.get('violations', [])}))
    det = lc.get('detected')
    hist = m.get('history', '')
    rows.append((name, (m.get('summary') or '')[:150].replace('|', '/').replace('\n', ' '),
                 (m.get('what_it_needs_to_manifest') or '')[:140].replace('|', '/').replace('\n', ' '),
                 'caught' if det else 'MISSED', (how or '')[:110].replace('|', '/'), hist))
out = ["| seeded | change | needs | result | caught by (finding key / broken obligation) | history |", "|---|---|---|---|---|---|"]
out += ["| %s | %s | %s | %s | %s | %s |" % r for r in rows]
n = len(rows); c = sum(1 for r in rows if r[3] == 'caught')
out.append("")
out.append("%d seeded changes, %d caught by the property's own quick check as it stands now." % (n, c))
p = '/verif/DESIGN.md'
s = open(p).read()
blk = "<!-- SEED-TABLE-BEGIN -->\n" + "\n".join(out) + "\n<!-- SEED-TABLE-END -->"
if "<!-- SEED-TABLE-BEGIN -->" in s:
    s = re.sub(r"<!-- SEED-TABLE-BEGIN -->.*?<!-- SEED-TABLE-END -->", lambda _: blk, s, flags=re.S)
else:
    s = s.replace("## A6. Not applicable", blk + "\n\n## A6. Not applicable")
open(p, 'w').write(s)
print(n, c)
