#!/usr/bin/env python3
"""usage: tools/try_seed.py <prop> <out-dir> <scratch-worktree> [--tier quick]
For every seeded change <out-dir>/<i>/ (patch.diff, demo_test.go, meta.json): confirm it in the scratch worktree
(demo passes clean, build ok with patch, demo fails with patch), then apply it to /repo, run ./check <prop>,
undo it, and store the change under /verif/seeded/<prop>-<i>/ with the lead's confirmation."""
import json, os, subprocess, sys, shutil, re
prop, outdir, wt = sys.argv[1:4]
tier = sys.argv[5] if len(sys.argv) > 5 and sys.argv[4] == "--tier" else "quick"
env = dict(os.environ, GOFLAGS="-mod=mod", GOPROXY="off")
def sh(cmd, cwd=None, timeout=3600):
    p = subprocess.run(cmd, shell=True, cwd=cwd, env=env, stdout=subprocess.PIPE, stderr=subprocess.STDOUT, text=True, timeout=timeout)
    return p.returncode, p.stdout
for i in sorted(os.listdir(outdir)):
    d = os.path.join(outdir, i)
    if not os.path.isfile(os.path.join(d, "patch.diff")):
        continue
    meta = json.load(open(os.path.join(d, "meta.json")))
    dest = meta.get("demo_path") or "common/zz_demo_test.go"
    pkg = "./" + os.path.dirname(dest) + "/"
    names = re.findall(r"^func (Test\w+)\(", open(os.path.join(d, "demo_test.go")).read(), re.M)
    runpat = "^(" + "|".join(names) + ")$"
    demo = "go test -vet=off -count=1 -timeout 20m -run '%s' %s" % (runpat, pkg)
    sh("git checkout -q -- . && git clean -fdq", wt)
    shutil.copy(os.path.join(d, "demo_test.go"), os.path.join(wt, dest))
    rc_clean, out_clean = sh(demo, wt)
    rc_apply, out_apply = sh("git apply %s" % os.path.join(d, "patch.diff"), wt)
    rc_build, out_build = sh("go build ./... && go build -tags verif ./...", wt)
    rc_demo, out_demo = sh(demo, wt)
    os.remove(os.path.join(wt, dest))
    rc_pkg, out_pkg = sh("go test -vet=off -count=1 -timeout 20m %s" % pkg, wt)
    sh("git checkout -q -- . && git clean -fdq", wt)
    ok = rc_clean == 0 and rc_apply == 0 and rc_build == 0 and rc_demo != 0 and rc_pkg == 0
    print("== %s-%s confirm: clean-demo rc=%d apply=%d build=%d demo-with-patch rc=%d pkg-tests rc=%d => %s" % (prop, i, rc_clean, rc_apply, rc_build, rc_demo, rc_pkg, "CONFIRMED" if ok else "NOT CONFIRMED"), flush=True)
    if not ok:
        print((out_clean[-400:] if rc_clean else "") + (out_build[-400:] if rc_build else "") + (out_pkg[-600:] if rc_pkg else ""))
        continue
    # run the check on /repo with the patch applied
    scratch = os.environ.get("SEED_SCRATCH")  # run against the scratch worktree instead of /repo (when /repo is in use by a long run)
    target = wt if scratch else "/repo"
    rc, o = sh("git -C %s apply %s" % (target, os.path.join(d, "patch.diff")))
    assert rc == 0, o
    try:
        rc_chk, out_chk = sh("VERIF_REPO=%s ./check %s --tier %s" % (target, prop, tier), "/verif", timeout=7200)
    finally:
        sh("git -C %s checkout -- . && git -C %s clean -fdq" % (target, target))
    viol = [l for l in out_chk.split("\n") if l.startswith("VIOLATION")]
    detail = []
    for v in viol:
        m = re.search(r"replay=(\S+)", v)
        if m and os.path.exists(m.group(1)):
            r = json.load(open(m.group(1)))
            detail.append({"line": v, "kind": r.get("kind"), "key": r.get("key"), "description": (r.get("description") or "")[:300],
                           "no_longer_checks": [b.get("what") for b in r.get("no_longer_checks", [])][:4]})
    detected = rc_chk == 1 and bool(viol)
    print("   check rc=%d detected=%s %s" % (rc_chk, detected, [ (x['key'] or x['no_longer_checks']) for x in detail][:3]), flush=True)
    k = 1
    while os.path.exists("/verif/seeded/%s-%d" % (prop, k)):
        k += 1
    sd = "/verif/seeded/%s-%d" % (prop, k)
    print("   stored as", sd, flush=True)
    os.makedirs(sd, exist_ok=True)
    for f in ("patch.diff", "demo_test.go"):
        shutil.copy(os.path.join(d, f), os.path.join(sd, f))
    meta["lead_confirmation"] = {
        "scratch_worktree": wt, "demo_command": demo,
        "ran": "demo on clean tree: pass; git apply: ok; go build ./... (with and without -tags verif): ok; demo with patch: FAIL (as intended); go test %s with patch: pass" % pkg,
        "check": "./check %s --tier %s with the patch applied to %s (git apply), reverted afterwards" % (prop, tier, "a scratch worktree of /repo main given as VERIF_REPO" if scratch else "/repo"),
        "check_exit": rc_chk, "detected": detected, "violations": detail}
    json.dump(meta, open(os.path.join(sd, "meta.json"), "w"), indent=1)
sh("rm -rf /verif/replays")
# evidence written while a seeded patch was applied must never be committed
sh("git -C /verif checkout -- evidence")
