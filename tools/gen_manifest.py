#!/usr/bin/env python3
"""Regenerate MANIFEST.json from props/*.json (claimed) and properties.jsonl (everything else → not_applicable)."""
import json, os, subprocess
ROOT = os.path.dirname(os.path.dirname(os.path.abspath(__file__)))
props = [json.loads(l) for l in open(os.path.join(ROOT, "properties.jsonl"))]
claimed = {}
for fn in sorted(os.listdir(os.path.join(ROOT, "props"))):
    if fn.endswith(".json"):
        c = json.load(open(os.path.join(ROOT, "props", fn)))
        claimed[c["id"]] = c
na_reasons = {}
p = os.path.join(ROOT, "tools", "not_applicable.json")
if os.path.exists(p):
    na_reasons = json.load(open(p))
hooks = subprocess.run(["git", "-C", "/repo", "log", "--format=%H %s"], capture_output=True, text=True).stdout.split("\n")
hook_commits = [l.split()[0] for l in hooks if " verif hooks" in l]
checks, na = [], []
for pr in props:
    i = pr["id"]
    if i in claimed:
        c = claimed[i]
        checks.append({
            "property_id": i,
            "quick_cmd": "./check %s --tier quick" % i,
            "thorough_cmd": "./check %s --tier thorough" % i,
            "evidence_file": "/verif/evidence/%s.json" % i,
            "replay_cmd_template": "./check %s --replay {path}" % i,
            "engine": "lean4-proof+correspondence",
            "level_claimed": {"category": "proof", "text": c.get("level_text", ""), "design_ref": "DESIGN.md §4 " + i},
            "level_note": c.get("level_note", "; ".join(c.get("trusted_base", []) + c.get("assumptions", []))),
            "technique": c.get("technique", "Lean 4 theorems about an executable model; model tied to the source by differential correspondence and regenerated facts"),
        })
    else:
        na.append({"property_id": i, "reason": na_reasons.get(i, "no check built yet: the Lean model and its correspondence harness for this property are not finished (planned in DESIGN.md §4); not claimed until they are")})
m = {
    "version": 1,
    "setup_cmd": "./check setup",
    "hooks": {
        "guard": "verif",
        "enable": "go build -tags verif (the harness module under /verif/harness is built with -tags verif against /repo through a replace directive)",
        "baseline_off_cmd": "cd /repo && go test -mod=mod -json -vet=off -count=1 -timeout 25m ./...",
        "source_commits": hook_commits,
        "add_only": True,
    },
    "engines": [{"name": "lean4-proof+correspondence", "path": "/verif/check",
                 "serves_properties": sorted(claimed),
                 "kind_free_text": "Lean 4 (4.33.0) theorems about hand-written executable models under /verif/lean; Go harness under /verif/harness runs the real code in-process on generated inputs/op sequences and the compiled Lean driver on the same lines (differential correspondence); go/ast fact extractor regenerates constants/tables/lock skeletons into Lean on every run"}],
    "checks": checks,
    "not_applicable": na,
    "notes": "Every check: rebuilds the Go harness from /repo's working tree with -tags verif, regenerates Mixin/Facts/Generated.lean, lake-builds the property's theorem module and the model driver, audits `#print axioms` of every listed theorem and greps for sorry/axiom/native_decide, runs the correspondence campaign (VERIF_SEED), and on any break searches the implementation in property mode for a concrete failing input. Known findings: /verif/known_findings.json.",
}
open(os.path.join(ROOT, "MANIFEST.json"), "w").write(json.dumps(m, indent=1) + "\n")
print("claimed:", sorted(claimed), "not_applicable:", len(na))
