#!/usr/bin/env python3
"""Print the prompt for an independent seeding agent for property <id> (property text only; nothing from /verif)."""
import json, sys
pid = sys.argv[1]; n = int(sys.argv[2]) if len(sys.argv) > 2 else 3
p = [json.loads(l) for l in open('/verif/properties.jsonl') if json.loads(l)['id'] == pid][0]
files = ", ".join(p['anchors']['files'])
mech = "; ".join("%s (%s)" % (m.get('name',''), m.get('where','')) for m in p['anchors'].get('mechanism', []))
import glob, os
prev = []
for d in sorted(glob.glob('/verif/seeded/%s-*/meta.json' % pid)):
    m = json.load(open(d))
    prev.append("- " + (m.get('summary') or '')[:260].replace("\n", " "))
PREVIOUS = ""
if prev and os.environ.get("MUT_ROUND2"):
    PREVIOUS = "\n\nOther people have already produced the following breaking changes for this property; yours must be DIFFERENT in site and mechanism (do not redo these, and prefer code paths, input shapes, interleavings and multi-step sequences these do not touch):\n" + "\n".join(prev)
print(f"""You are testing how well a semantic property of a Go codebase is protected. Work only inside the git worktree /tmp/mut/{pid} (a scratch checkout of the MixinNetwork/mixin repository: the Mixin Kernel, a Go BFT-DAG blockchain node). Do not look at or touch /verif or /repo. Ignore files named verif_hooks_*.go (test hooks behind a build tag; do not edit them). No network is available. Go env for every command: `export GOFLAGS=-mod=mod GOPROXY=off` (do NOT set GOSUMDB=off).

The property ({pid} — {p['title']}): "{p['statement']}"
It quantifies over: {p['quantifier']['text']}
Anchored in: {files}. Mechanisms meant to make it hold: {mech}

Task: produce {n} different, realistic changes to the repository's non-test source (each a separate patch against the unmodified worktree) that each BREAK this property while (a) the code still compiles (`go build ./...` and `go test -count=1 -run '^$' ./...`), and (b) the repository's existing tests still pass — run at least the packages that could be affected with `go test -vet=off -count=1 ./<pkg>/...` (common, crypto, storage, kernel, p2p as relevant; kernel takes a few minutes; `rpc` TestConsensus is flaky and may be skipped). Prefer changes that need something specific to manifest — a particular interleaving, a crash or fault at a particular point, a multi-step sequence of operations, an unusual input or boundary value, or two cooperating sites that each look fine alone — not changes that ordinary use would expose at once. They should look like something a maintainer could plausibly commit by mistake (a refactor, an optimisation, a tidy-up, an off-by-one, a dropped guard, a reordered pair of statements).

For each change i write into /tmp/mut/{pid}-out/<i>/ : `patch.diff` (output of `git diff` against the unmodified tree; must apply cleanly with `git apply`), `demo_test.go` (a Go test, in the package it needs, that FAILS with the patch applied and PASSES on the unmodified tree; it demonstrates the property violation, not just a behaviour difference), and `meta.json` with fields: property ("{pid}"), summary, what_it_needs_to_manifest, files_touched, demo_path (where demo_test.go must be placed relative to the repo root, e.g. "storage/zz_demo_test.go"), demo_run (the `go test` command line to run it), commands_run (the exact commands you ran and outcomes for: build, existing tests with the patch, demo with the patch (fails), demo without the patch (passes)). Reset the worktree (`git checkout -- . && git clean -fd`) between changes and at the end. NEVER use `git stash` (the stash is shared by all worktrees of this repository and other agents work in sibling worktrees); save your diff to a file and use `git apply` / `git apply -R` instead. Your final message: a short table of the changes.{PREVIOUS}""")
