#!/usr/bin/env python3
"""Resolve a merge conflict in known_findings.json by taking the union of both sides (by key),
and rewrite `commit` fields of fixed entries to the hash of the commit with the same subject on /repo main."""
import json, subprocess, sys, os
os.chdir("/verif")
def side(n):
    try:
        return json.loads(subprocess.run(["git", "show", ":%d:known_findings.json" % n], capture_output=True, text=True, check=True).stdout)
    except Exception:
        return None
ours, theirs = side(2), side(3)
if ours is None or theirs is None:
    ours = json.load(open("known_findings.json")); theirs = {"findings": []}
out = dict(ours)
keys = {f["key"] for f in ours["findings"]}
out["findings"] = ours["findings"] + [f for f in theirs["findings"] if f["key"] not in keys]
# map commit hashes of builder branches to /repo main by subject
log = subprocess.run(["git", "-C", "/repo", "log", "--all", "--format=%H\t%s"], capture_output=True, text=True).stdout.strip().split("\n")
subj = {}
for l in log:
    h, s = l.split("\t", 1); subj.setdefault(h, s)
main = dict((s, h) for h, s in (l.split("\t", 1) for l in subprocess.run(["git", "-C", "/repo", "log", "main", "--format=%H\t%s"], capture_output=True, text=True).stdout.strip().split("\n")))
for f in out["findings"]:
    c = f.get("commit")
    if c:
        full = [h for h in subj if h.startswith(c)]
        if full and subj[full[0]] in main:
            f["commit"] = main[subj[full[0]]]
            f["commit_subject"] = subj[full[0]]
json.dump(out, open("known_findings.json", "w"), indent=1); open("known_findings.json", "a").write("\n")
print("findings:", [(f["key"], f["status"], f.get("commit", "")[:10]) for f in out["findings"]])
