#!/bin/bash
# usage: tools/mkmut.sh Cxx — scratch worktree of /repo for an independent seeding agent
mkdir -p /tmp/mut; git -C /repo worktree add -q /tmp/mut/$1 -b mut-$1-$RANDOM main && echo /tmp/mut/$1
