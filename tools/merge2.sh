#!/bin/bash
# usage: tools/merge2.sh <name>  — cherry-pick repo hooks, merge verif branch (evidence conflicts -> theirs, known_findings -> union), remove worktrees
n=$1; cd /verif
for c in $(git -C /repo log --reverse --format=%H main..h-$n); do git -C /repo cherry-pick $c >/dev/null 2>&1 || { echo "PICK FAIL $c"; git -C /repo cherry-pick --skip 2>/dev/null; }; done
git merge --no-ff -m "merge builder $n" b-$n 2>&1 | grep -i "conflict"
for f in $(git diff --name-only --diff-filter=U); do if [ "$f" = known_findings.json ]; then python3 tools/resolve_kf.py; else git checkout --theirs "$f"; fi; done
git add -A; git commit -qm "merge builder $n" 2>/dev/null | tail -1
git -C /verif worktree remove --force /tmp/vw/$n; git -C /repo worktree remove --force /tmp/rw/$n; git -C /verif branch -D b-$n -q; git -C /repo branch -D h-$n -q
git log --oneline | head -1
