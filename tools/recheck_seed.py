#!/usr/bin/env python3
"""usage: tools/recheck_seed.py <seed-name>...   e.g. C06-3 C07-2
Re-run ./check on /repo with a stored seeded change applied (reverted afterwards) and update seeded/<name>/meta.json."""
import json, os, re, subprocess, sys
def sh(cmd, cwd=None):
    p = subprocess.run(cmd, shell=True, cwd=cwd, stdout=subprocess.PIPE, stderr=subprocess.STDOUT, text=True)
    return p.returncode, p.stdout
for name in sys.argv[1:]:
    d = "/verif/seeded/" + name
    prop = name.split("-")[0]
    meta = json.load(open(d + "/meta.json"))
    target = "/repo"
    if os.environ.get("SEED_SCRATCH"):
        target = "/tmp/mut/recheck-wt"
        sh("git -C /repo worktree remove --force %s" % target)
        rc, o = sh("git -C /repo worktree add --detach %s main" % target)
        assert rc == 0, o
    rc, o = sh("git -C %s apply %s/patch.diff" % (target, d))
    assert rc == 0, o
    try:
        rc_chk, out = sh("VERIF_REPO=%s ./check %s --tier quick" % (target, prop), "/verif")
    finally:
        sh("git -C %s checkout -- . && git -C %s clean -fdq" % (target, target))
        if target != "/repo":
            sh("git -C /repo worktree remove --force %s" % target)
    viol = [l for l in out.split("\n") if l.startswith("VIOLATION")]
    detail = []
    for v in viol:
        m = re.search(r"replay=(\S+)", v)
        if m and os.path.exists(m.group(1)):
            r = json.load(open(m.group(1)))
            detail.append({"line": v, "kind": r.get("kind"), "key": r.get("key"), "description": (r.get("description") or "")[:300],
                           "no_longer_checks": [b.get("what") for b in r.get("no_longer_checks", [])][:4]})
    lc = meta.setdefault("lead_confirmation", {})
    was = lc.get("detected")
    detected = rc_chk == 1 and bool(viol)
    if was is False and detected:
        meta["history"] = "missed by the first version of the check; caught after the check was strengthened (generators/property mode), see DESIGN.md A5"
    lc.update({"check_exit": rc_chk, "detected": detected, "violations": detail})
    json.dump(meta, open(d + "/meta.json", "w"), indent=1)
    print(name, "detected=%s" % detected, [x["key"] or x["no_longer_checks"] for x in detail][:3], flush=True)
sh("rm -rf /verif/replays")
# evidence written while a seeded patch was applied must never be committed
sh("git -C /verif checkout -- evidence")
