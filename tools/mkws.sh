#!/bin/bash
# usage: tools/mkws.sh <name>   — scratch worktrees for a builder: /tmp/vw/<name> (of /verif), /tmp/rw/<name> (of /repo)
set -e
n=$1
mkdir -p /tmp/vw /tmp/rw
git -C /verif worktree add -q /tmp/vw/$n -b b-$n
git -C /repo worktree add -q /tmp/rw/$n -b h-$n
echo "VW=/tmp/vw/$n RW=/tmp/rw/$n"
